---------------------------- MODULE AkStructure ----------------------------
(***************************************************************************)
(* The value-level meaning of the structure functions that exist only in  *)
(* the Python layer (src/awkward/operations/structure.py), on top of the   *)
(* value machine of AkValue:                                               *)
(*   fill_none(value, axis | None), is_none(axis), mask(m, valid_when),    *)
(*   singletons, firsts, flatten(axis=None) / ravel, reducers with         *)
(*   axis=None, concatenate([x, x], axis=1), zip({a: x, b: x}),            *)
(*   the law unflatten(flatten(x), num(x)) = x, and the value-preserving   *)
(*   to_regular / from_regular / packed.                                   *)
(* As in AkValue, `depth` is the depth of the node whose ELEMENTS have     *)
(* type T (0 for the array itself) and a negative axis is resolved where   *)
(* the subtree below is uniform (AxisWrap).                                *)
(***************************************************************************)
EXTENDS AkValue

AxisNone == 77777       \* "axis=None"
HasUnion(T) == LET RECURSIVE has(_)
                   has(U) == CASE U.k = "union" -> TRUE
                               [] U.k \in {"var", "reg", "opt"} -> has(U.x)
                               [] U.k = "rec" -> \E j \in 1..Len(U.xs) : has(U.xs[j])
                               [] OTHER -> FALSE
               IN has(T)

\* a union whose members have the same shape (lists / options / records alike, leaf dtypes aside) behaves, for everything
\* that does not look at dtypes, like an array of its first member's type: Collapse replaces such unions by that member
RECURSIVE Skel(_)
Skel(U) == CASE U.k \in {"var", "opt"} -> [k |-> U.k, x |-> Skel(U.x)]
             [] U.k = "reg" -> [k |-> "reg", n |-> U.n, x |-> Skel(U.x)]
             [] U.k = "rec" -> [k |-> "rec", ks |-> U.ks, xs |-> [j \in 1..Len(U.xs) |-> Skel(U.xs[j])]]
             [] U.k = "union" -> [k |-> "union", xs |-> [j \in 1..Len(U.xs) |-> Skel(U.xs[j])]]
             [] U.k = "num" -> [k |-> "num"]
             [] OTHER -> U
RECURSIVE Collapse(_)
Collapse(U) == CASE U.k \in {"var", "reg", "opt"} -> [U EXCEPT !.x = Collapse(U.x)]
                 [] U.k = "rec" -> [U EXCEPT !.xs = [j \in 1..Len(U.xs) |-> Collapse(U.xs[j])]]
                 [] U.k = "union" -> LET ms == [j \in 1..Len(U.xs) |-> Collapse(U.xs[j])] IN
                                     IF Len(ms) > 0 /\ \A j \in 1..Len(ms) : Skel(ms[j]) = Skel(ms[1]) /\ ms[j].k \in {"var", "reg", "num"}
                                     THEN ms[1] ELSE [U EXCEPT !.xs = ms]
                 [] OTHER -> U

Reaches(T, axis, depth) ==            \* can `axis` be resolved and found at or below this node?
  LET RECURSIVE go(_, _, _)
      go(U, ax, d) ==
        LET pa == AxisWrap(U, ax, d) IN
        IF pa = WrapErr THEN FALSE
        ELSE IF pa >= 0 /\ pa <= d THEN TRUE
        ELSE CASE U.k \in {"var", "reg"} -> go(U.x, pa, d + 1)
               [] U.k = "opt" -> go(U.x, pa, d)
               [] U.k = "rec" -> U.xs # <<>> /\ \A j \in 1..Len(U.xs) : go(U.xs[j], pa, d)
               [] U.k = "union" -> \A j \in 1..Len(U.xs) : go(U.xs[j], pa, d)
               [] OTHER -> FALSE
  IN go(T, axis, depth)

NoWrapErr(T, axis, depth) ==          \* no node on the way raises "axis exceeds the depth"
  LET RECURSIVE go(_, _, _)
      go(U, ax, d) ==
        LET pa == AxisWrap(U, ax, d) IN
        IF pa = WrapErr THEN FALSE
        ELSE IF pa >= 0 /\ pa < d THEN TRUE
        ELSE CASE U.k \in {"var", "reg"} -> go(U.x, pa, d + 1)
               [] U.k = "opt" -> go(U.x, pa, d)
               [] U.k \in {"rec", "union"} -> \A j \in 1..Len(U.xs) : go(U.xs[j], pa, d)
               [] OTHER -> TRUE
  IN go(T, axis, depth)

\* ---------------------------------------------------------------- fill_none (C09)
\* replaces exactly the None values among the elements at level `axis` (all of them for axis=None)
RECURSIVE FillE(_, _, _, _, _)
FillE(xs, T, axis, depth, val) ==
  LET pa == IF axis = AxisNone THEN AxisNone ELSE AxisWrap(T, axis, depth)
      here == pa = AxisNone \/ pa = depth
      below == pa = AxisNone \/ pa < 0 \/ pa > depth IN
  CASE T.k = "opt" ->
         \* (what is not missing here is looked into as well: a record's fields are at the record's own level)
         [k \in 1..Len(xs) |-> IF IsNone(xs[k]) THEN (IF here THEN val ELSE VNone)
                               ELSE IF here \/ below THEN FillE(<<xs[k]>>, T.x, pa, depth, val)[1] ELSE xs[k]]
    [] T.k \in {"var", "reg"} ->
         IF ~below THEN xs ELSE [k \in 1..Len(xs) |-> VList(FillE(xs[k].xs, T.x, pa, depth + 1, val))]
    [] T.k = "rec" ->
         [k \in 1..Len(xs) |-> VRec(xs[k].ks, [j \in 1..Len(T.xs) |-> FillE(<<xs[k].vs[j]>>, T.xs[j], pa, depth, val)[1]])]
    [] OTHER -> xs
VFillNone(v, T, axis, val) ==
  IF HasUnion(T) THEN Unspec
  ELSE IF axis # AxisNone /\ axis < 0 /\ ~Uniform(T) THEN Unspec     \* "the level -k" of branches of different depths
  ELSE IF axis # AxisNone /\ ~NoWrapErr(T, axis, 0) THEN Err
  ELSE Ok(VList(FillE(v.xs, T, axis, 0, val)))

\* ---------------------------------------------------------------- is_none (C09)
RECURSIVE IsNoneE(_, _, _, _)
IsNoneE(xs, T, axis, depth) ==
  LET pa == AxisWrap(T, axis, depth) IN
  IF pa = depth THEN [k \in 1..Len(xs) |-> VInt(IF IsNone(xs[k]) THEN 1 ELSE 0)]
  ELSE CASE T.k = "opt" -> [k \in 1..Len(xs) |-> IF IsNone(xs[k]) THEN VNone ELSE IsNoneE(<<xs[k]>>, T.x, pa, depth)[1]]
         [] T.k \in {"var", "reg"} -> [k \in 1..Len(xs) |-> VList(IsNoneE(xs[k].xs, T.x, pa, depth + 1))]
         [] T.k = "rec" ->
              [k \in 1..Len(xs) |-> VRec(xs[k].ks, [j \in 1..Len(T.xs) |-> IsNoneE(<<xs[k].vs[j]>>, T.xs[j], pa, depth)[1]])]
         [] OTHER -> xs
VIsNone(v, T, axis) ==
  IF HasUnion(T) THEN Unspec
  ELSE IF ~NoWrapErr(T, axis, 0) THEN Err
  ELSE IF ~Reaches(T, axis, 0) THEN Unspec          \* an axis deeper than the data: nothing to test
  ELSE Ok(VList(IsNoneE(v.xs, T, axis, 0)))

\* ---------------------------------------------------------------- mask (C09), top-level boolean mask m (a sequence of 0/1)
VMask(v, m, vw) ==
  IF Len(m) # Len(v.xs) THEN Err
  ELSE Ok(VList([k \in 1..Len(m) |-> IF m[k] = vw THEN v.xs[k] ELSE VNone]))

\* ---------------------------------------------------------------- singletons / firsts
RECURSIVE SingE(_, _)
SingE(xs, T) ==
  CASE T.k = "opt" -> [k \in 1..Len(xs) |-> IF IsNone(xs[k]) THEN VList(<<>>) ELSE VList(<<xs[k]>>)]
    [] T.k \in {"var", "reg"} -> [k \in 1..Len(xs) |-> VList(SingE(xs[k].xs, T.x))]
    [] T.k = "rec" -> [k \in 1..Len(xs) |-> VRec(xs[k].ks, [j \in 1..Len(T.xs) |-> SingE(<<xs[k].vs[j]>>, T.xs[j])[1]])]
    [] OTHER -> xs
VSingletons(v, T) == IF HasUnion(T) THEN Unspec ELSE Ok(VList(SingE(v.xs, T)))

VFirsts(v, T) ==        \* axis=1: the first element of each list, None for an empty (or missing) list
  LET U == StripOpt(T) IN
  IF U.k \notin {"var", "reg"} THEN Unspec
  ELSE IF U.k = "reg" /\ U.n = 0 THEN Unspec        \* x[:, 0] on a regular dimension of size 0 is refused by type
  ELSE Ok(VList([k \in 1..Len(v.xs) |-> IF IsNone(v.xs[k]) \/ v.xs[k].xs = <<>> THEN VNone ELSE v.xs[k].xs[1]]))

\* ---------------------------------------------------------------- axis=None: all leaves in order, missing ones dropped
RECURSIVE Leaves(_)
Leaves(e) == CASE e.t = "list" -> Flat([k \in 1..Len(e.xs) |-> Leaves(e.xs[k])])
               [] e.t = "none" -> <<>>
               [] OTHER -> <<e>>
HasRecT(T) == LET RECURSIVE has(_)
                  has(U) == CASE U.k = "rec" -> TRUE
                              [] U.k \in {"var", "reg", "opt"} -> has(U.x)
                              [] U.k = "union" -> \E j \in 1..Len(U.xs) : has(U.xs[j])
                              [] OTHER -> FALSE
              IN has(T)
\* (also for unions: "all leaves in order"; the library groups them by union content -- finding F73 -- but never
\*  loses or duplicates one)
\* with records the leaves come field by field: all of field 1 (over ALL records of the node), then field 2, ...
RECURSIVE LeavesT(_, _)
LeavesT(es, T) ==           \* es: a sequence of elements of type T
  LET live == Select(es, LAMBDA e : ~IsNone(e)) IN
  CASE T.k = "opt" -> LeavesT(live, T.x)
    [] T.k \in {"var", "reg"} -> LeavesT(Flat([k \in 1..Len(live) |-> live[k].xs]), T.x)
    [] T.k = "rec" -> Flat([j \in 1..Len(T.xs) |-> LeavesT([k \in 1..Len(live) |-> live[k].vs[j]], T.xs[j])])
    [] OTHER -> live
VFlattenAll(v, T) == IF HasStrT(T) THEN Unspec
                     ELSE IF HasUnion(T) THEN (IF HasRecT(T) THEN Unspec ELSE Ok(VList(Leaves(v))))
                     ELSE Ok(VList(LeavesT(v.xs, T)))
VReduceAll(v, T, r) ==
  IF HasRecOrUnion(T) \/ HasStrT(T) THEN Unspec
  ELSE LET ls == Leaves(v)  g == [k \in 1..Len(ls) |-> [i |-> k - 1, v |-> ls[k]]] IN
       IF r \in {"count", "count_nonzero", "sum", "prod", "any", "all"} THEN Ok(LeafReduce(r, g, 0)) ELSE Unspec

\* ---------------------------------------------------------------- concatenate([x, x], axis=1), zip({"a": x, "b": x})
VConcatSelf1(v, T) ==
  IF T.k \notin {"var", "reg"} THEN Unspec
  ELSE Ok(VList([k \in 1..Len(v.xs) |-> VList(v.xs[k].xs \o v.xs[k].xs)]))

RECURSIVE ZipE(_, _)
ZipE(e, T) ==
  \* where no list level is left (leaves, option-type leaves, records) the operands become the fields as they are,
  \* a missing leaf included; a missing LIST stays a missing list
  IF PureDepthE(T) = 1 THEN VRec(<<"a", "b">>, <<e, e>>)
  ELSE CASE T.k = "opt" -> IF IsNone(e) THEN VNone ELSE ZipE(e, T.x)
         [] T.k \in {"var", "reg"} -> VList([k \in 1..Len(e.xs) |-> ZipE(e.xs[k], T.x)])
VZipSelf(v, T) == IF HasUnion(T) \/ HasStrT(T) THEN Unspec ELSE Ok(VList([k \in 1..Len(v.xs) |-> ZipE(v.xs[k], T)]))

\* ---------------------------------------------------------------- NumPy ufuncs on the leaves (C04): 2*x + 1 and x + x
RECURSIVE MapE(_, _)
MapE(e, mul) == CASE e.t = "list" -> VList([k \in 1..Len(e.xs) |-> MapE(e.xs[k], mul)])
                  [] e.t = "int" -> VInt(IF mul THEN 2 * e.x + 1 ELSE e.x + e.x)
                  [] OTHER -> e                                   \* None stays None, NaN stays NaN
LeafDt(T) == LET RECURSIVE leaf(_)
                 leaf(U) == IF U.k \in {"var", "reg", "opt"} THEN leaf(U.x) ELSE U
             IN leaf(T)
\* (NumPy's arithmetic on booleans is logical, not numeric: not what MapE states)
VUfunc(v, T, mul) == IF HasRecOrUnion(T) \/ HasStrT(T) \/ LeafDt(T).k # "num" \/ LeafDt(T).dt = "bool" THEN Unspec ELSE Ok(MapE(v, mul))

\* ---------------------------------------------------------------- ak.zeros_like / ones_like / full_like, ak.nan_to_num (C04)
\* the structure (lists, records, missing values) stays, every number becomes the constant / every NaN becomes 0
RECURSIVE ConstE(_, _, _)
ConstE(e, c, nanonly) ==
  CASE e.t = "list" -> VList([k \in 1..Len(e.xs) |-> ConstE(e.xs[k], c, nanonly)])
    [] e.t = "rec" -> [e EXCEPT !.vs = [k \in 1..Len(e.vs) |-> ConstE(e.vs[k], c, nanonly)]]
    [] e.t = "none" -> e
    [] e.t = "nan" -> VInt(c)
    [] OTHER -> IF nanonly THEN e ELSE VInt(c)
VLike(v, T, c) == IF HasUnion(T) \/ HasStrT(T) \/ T.k = "unknown" THEN Unspec ELSE Ok(ConstE(v, c, FALSE))
VNanToNum(v, T) == IF HasUnion(T) \/ HasStrT(T) \/ T.k = "unknown" THEN Unspec ELSE Ok(ConstE(v, 0, TRUE))

\* ---------------------------------------------------------------- x[x > k]: a jagged boolean index made by a real comparison (C01)
HasRegT(T) == LET RECURSIVE has(_)
                  has(U) == CASE U.k = "reg" -> TRUE
                              [] U.k \in {"var", "opt"} -> has(U.x)
                              [] OTHER -> FALSE
              IN has(T)
RECURSIVE FilterE(_, _, _)
FilterE(xs, T, k) ==        \* xs: the elements (type T) of one list / of the array
  IF T.k = "num" THEN Select(xs, LAMBDA x : x.t = "int" /\ x.x > k)
  ELSE [j \in 1..Len(xs) |-> VList(FilterE(xs[j].xs, T.x, k))]
VFilter(v, T, k) ==
  \* option types (a comparison with None is None: an index with missing values) and regular dimensions (NumPy's
  \* boolean-mask rule flattens them) are other index kinds than the one meant here
  IF HasRecOrUnion(T) \/ HasStrT(T) \/ HasAnyOpt(T) \/ HasRegT(T) \/ T.k = "unknown" THEN Unspec
  ELSE Ok(VList(FilterE(v.xs, T, k)))

\* ---------------------------------------------------------------- ak.cartesian([x, x], axis=1): itertools.product per list, as pairs (C07)
VCartSelf(v, T) ==
  IF T.k \notin {"var", "reg"} THEN Unspec
  ELSE Ok(VList([k \in 1..Len(v.xs) |->
                   LET xs == v.xs[k].xs IN
                   VList(Flat([i \in 1..Len(xs) |-> [j \in 1..Len(xs) |-> VRec(<<"0", "1">>, <<xs[i], xs[j]>>)]]))]))

\* ---------------------------------------------------------------- ak.with_field(x, x[key], new): every record gains (or replaces) a field (C10)
RECURSIVE WithFieldE(_, _, _, _)
WithFieldE(e, T, key, new) ==
  CASE T.k = "opt" -> IF IsNone(e) THEN VNone ELSE WithFieldE(e, T.x, key, new)
    [] T.k \in {"var", "reg"} -> VList([k \in 1..Len(e.xs) |-> WithFieldE(e.xs[k], T.x, key, new)])
    [] T.k = "rec" ->
         LET w == e.vs[CHOOSE j \in 1..Len(e.ks) : e.ks[j] = key] IN
         \* (ak.with_field puts a replaced field last; the C++ setitem_field of Session!SetFieldOp replaces in place)
         LET keep == Indexes(e.ks, LAMBDA k : k # new) IN
         VRec([q \in 1..Len(keep) |-> e.ks[keep[q]]] \o <<new>>, [q \in 1..Len(keep) |-> e.vs[keep[q]]] \o <<w>>)
RecordAtEnd(T, key) ==       \* lists/options all the way down to ONE named record holding `key`
  LET RECURSIVE go(_)
      go(U) == CASE U.k \in {"var", "reg", "opt"} -> go(U.x)
                 [] U.k = "rec" -> U.tup = 0 /\ \E j \in 1..Len(U.ks) : U.ks[j] = key
                 [] OTHER -> FALSE
  IN go(T)
\* an option above the records and an option-type value: option broadcasting makes the RECORD missing where the value is
OptAboveRecAndOptField(T, key) ==
  LET RECURSIVE go(_, _)
      go(U, seenopt) == CASE U.k = "opt" -> go(U.x, TRUE)
                          [] U.k \in {"var", "reg"} -> go(U.x, seenopt)
                          [] U.k = "rec" -> seenopt /\ U.xs[CHOOSE j \in 1..Len(U.ks) : U.ks[j] = key].k = "opt"
                          [] OTHER -> FALSE
  IN go(T, FALSE)
VWithFieldSelf(v, T, key, new) ==
  IF ~RecordAtEnd(T, key) THEN Unspec
  ELSE IF OptAboveRecAndOptField(T, key) THEN Unspec
  ELSE Ok(VList([k \in 1..Len(v.xs) |-> WithFieldE(v.xs[k], T, key, new)]))

\* ak.with_field(x, vals, new) with ONE value per element of x: left-broadcast -- every record inside element i gets vals[i]
RECURSIVE WithConstE(_, _, _, _)
WithConstE(e, T, new, w) ==
  CASE T.k = "opt" -> IF IsNone(e) THEN VNone ELSE WithConstE(e, T.x, new, w)
    [] T.k \in {"var", "reg"} -> VList([k \in 1..Len(e.xs) |-> WithConstE(e.xs[k], T.x, new, w)])
    [] T.k = "rec" ->
         LET keep == Indexes(e.ks, LAMBDA k : k # new) IN
         VRec([q \in 1..Len(keep) |-> e.ks[keep[q]]] \o <<new>>, [q \in 1..Len(keep) |-> e.vs[keep[q]]] \o <<w>>)
NamedRecordAtEnd(T) ==
  LET RECURSIVE go(_)
      go(U) == CASE U.k \in {"var", "reg", "opt"} -> go(U.x)
                 [] U.k = "rec" -> U.tup = 0
                 [] OTHER -> FALSE
  IN go(T)
VWithFieldBroadcast(v, T, new, vals) ==
  IF ~NamedRecordAtEnd(T) \/ Len(vals) # Len(v.xs) THEN Unspec
  ELSE LET r == VList([k \in 1..Len(v.xs) |-> WithConstE(v.xs[k], T, new, VInt(vals[k]))]) IN
       \* (left-broadcasting INTO a fixed-size dimension is refused by this version unless its size is 1)
       IF HasRegT(T) THEN May(r) ELSE Ok(r)

\* ak.unzip(ak.zip({a: x, b: x})): both fields read back as x (zip broadcasts to the deepest common level, unzip projects)
VUnzipLaw(v, T) == IF HasUnion(T) \/ HasStrT(T) THEN Unspec ELSE Ok(VList(<<v, v>>))

\* ak.with_field(ak.zip((x, x, x), depth_limit=1), vals, str(slot)): overwriting an EXISTING slot of a tuple.  After it, reading
\* that slot gives the value and every other slot reads what it read before (the recorded result names its fields by slot number,
\* in slot order: whether the result is still a tuple, and in which order it stores the fields, is not judged)
VWithSlot(v, T, slot, vals) ==
  IF T.k = "opt" \/ Len(vals) # Len(v.xs) THEN Unspec
  ELSE Ok(VList([k \in 1..Len(v.xs) |-> VRec(<<"0", "1", "2">>, [q \in 1..3 |-> IF q = slot + 1 THEN VInt(vals[k]) ELSE v.xs[k]])]))

\* ---------------------------------------------------------------- unflatten(flatten(x, axis=1), num(x, axis=1)) = x   (C05)
VUnflattenLaw(v, T) == IF T.k \in {"var", "reg"} THEN Ok(v) ELSE Unspec     \* "when x has no missing lists at that level"
=============================================================================
