---------------------------- MODULE TraceVirtual ----------------------------
(***************************************************************************)
(* Code -> spec for C18: long random sessions on the C++ VirtualArray      *)
(* (operations and cache evictions in a seeded random order, 5 to 40       *)
(* steps, every cache kind, generator behaviour and declaration), logged   *)
(* after every call with what the property observes -- did the virtual     *)
(* array answer as the eager one / raise, how many generator calls the     *)
(* step caused, how many entries the cache holds -- and validated against  *)
(* the ACTIONS of Virtual.tla: each logged call must be a Do(o) or Evict   *)
(* step of the specification from the state the previous calls led to,     *)
(* and the expectation that step computes must match the log.              *)
(***************************************************************************)
EXTENDS Virtual, IOUtils

Traces == ndJsonDeserialize(IOEnv.TRACE_FILE)

VARIABLES tid, l, rejected
tvars == <<tid, l, rejected, cfg, held, inferred, calls, hist, done>>

Load(t) == /\ cfg' = Traces[t].cfg /\ held' = FALSE /\ inferred' = FALSE /\ calls' = 0 /\ hist' = <<>> /\ done' = FALSE

TInit == /\ tid = 1 /\ l = 1 /\ rejected = 0
         /\ cfg = (IF Len(Traces) >= 1 THEN Traces[1].cfg ELSE NoCfg)
         /\ held = FALSE /\ inferred = FALSE /\ calls = 0 /\ hist = <<>> /\ done = FALSE

Reject(why) ==
  /\ PrintT(<<"TRACE-REJECTED", tid, l, why, ToJson([ev |-> Traces[tid].events[l], held |-> held, inferred |-> inferred, cfg |-> cfg])>>)
  /\ rejected' = rejected + 1 /\ tid' = tid + 1 /\ l' = 1
  /\ IF tid + 1 <= Len(Traces) THEN Load(tid + 1) ELSE UNCHANGED <<cfg, held, inferred, calls, hist, done>>

\* what the specification's step expects, against what was logged
Conforms(ev, h) ==
  /\ (h.exp = "error" => ev.raised = 1)
  /\ (h.exp = "same" => (ev.raised = 0 /\ ev.same = 1))
  /\ (h.needs = 0 => ev.delta = 0)
  /\ (h.needs = 1 /\ h.exact = 1 => ev.delta = h.delta)
  /\ (h.needs = 1 /\ h.exact = 0 => ev.delta >= h.delta)

TraceDo ==
  /\ tid <= Len(Traces) /\ l <= Len(Traces[tid].events)
  /\ LET ev == Traces[tid].events[l] IN
     /\ ev.o.op # "evict"
     /\ Do(ev.o)                                            \* the specification's own action
     /\ Conforms(ev, hist'[Len(hist')])
     /\ (cfg.cache # "keep" => ev.held = 0)                  \* only a keeping cache ever holds
     /\ (cfg.cache = "keep" => ev.held = (IF held' THEN 1 ELSE 0))
     /\ l' = l + 1 /\ UNCHANGED <<tid, rejected>>

TraceDoRejected ==     \* no Do step of the specification explains the logged call
  /\ tid <= Len(Traces) /\ l <= Len(Traces[tid].events)
  /\ LET ev == Traces[tid].events[l]
         m == Materialise
         needs == NeedsData(ev.o)
         h == IF needs THEN [exp |-> IF m.ok THEN "same" ELSE "error", delta |-> m.calls - calls,
                             exact |-> IF cfg.cache = "keep" \/ ~m.ok THEN 1 ELSE 0, needs |-> 1]
              ELSE [exp |-> "same", delta |-> 0, exact |-> 1, needs |-> 0]
         heldAfter == IF needs THEN m.held ELSE held
     IN /\ ev.o.op # "evict"
        /\ ~(/\ Conforms(ev, h)
             /\ (cfg.cache # "keep" => ev.held = 0)
             /\ (cfg.cache = "keep" => ev.held = (IF heldAfter THEN 1 ELSE 0)))
        /\ Reject("the call is not a Do step of Virtual.tla from this state")

TraceEvict ==
  /\ tid <= Len(Traces) /\ l <= Len(Traces[tid].events)
  /\ Traces[tid].events[l].o.op = "evict"
  /\ IF cfg.cache = "keep" /\ held
     THEN /\ Evict /\ l' = l + 1 /\ UNCHANGED <<tid, rejected>>
     ELSE /\ Traces[tid].events[l].held = 0              \* evicting an empty cache changes nothing
          /\ l' = l + 1 /\ UNCHANGED <<tid, rejected, cfg, held, inferred, calls, hist, done>>

NextTrace ==
  /\ tid <= Len(Traces) /\ l > Len(Traces[tid].events)
  /\ tid' = tid + 1 /\ l' = 1 /\ UNCHANGED rejected
  /\ IF tid + 1 <= Len(Traces) THEN Load(tid + 1) ELSE UNCHANGED <<cfg, held, inferred, calls, hist, done>>

Report ==
  /\ tid = Len(Traces) + 1
  /\ PrintT(<<"TRACES-CHECKED", Len(Traces), "rejected", rejected>>)
  /\ tid' = tid + 1 /\ UNCHANGED <<l, rejected, cfg, held, inferred, calls, hist, done>>

TNext == TraceDo \/ TraceDoRejected \/ TraceEvict \/ NextTrace \/ Report

\* the design's invariants hold along every recorded session too
TraceInv == HeldOnlyIfKeep /\ NoStale
=============================================================================
