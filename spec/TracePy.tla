------------------------------- MODULE TracePy -------------------------------
(***************************************************************************)
(* Code -> spec for the PYTHON layer (src/awkward/operations/structure.py,  *)
(* reducers.py, highlevel.py running unmodified over the stand-in for      *)
(* awkward._ext): chains of high-level calls -- ak.num, ak.flatten (also   *)
(* axis=None), ak.local_index, ak.pad_none, ak.fill_none, ak.is_none,       *)
(* ak.mask, ak.singletons, ak.firsts, ak.combinations, ak.sort/argsort,     *)
(* reducers (also axis=None), ak.concatenate, ak.zip, ak.unflatten,         *)
(* ak.to_regular / from_regular / packed -- each fed with the real result   *)
(* of the previous one.  Same event format and acceptance rule as          *)
(* TraceSession.                                                           *)
(***************************************************************************)
EXTENDS AkStructure, Json, IOUtils

TraceFile == IOEnv.TRACE_FILE
Traces == ndJsonDeserialize(TraceFile)

VARIABLES tid, l, rejected, prev
pvars == <<tid, l, rejected, prev>>
NoPrev == [t |-> "noprev"]

\* unions: the value machine carries no tags, so only what does not depend on them is specified for union-typed arrays
UnionSafe(ev) == \/ ev.op \in {"rt_buffers", "rt_pickle", "rt_json", "rt_iter", "same", "concat0", "concat2", "concat3", "concatperm", "mask"}
                 \/ ev.op = "flatten" /\ ev.args.axis = AxisNone
Expected(ev) ==
  \* slicing a union of like-shaped members (lists of numbers of different dtypes, say) is slicing an array of that shape
  IF ev.op = "slice" /\ HasUnion(ev.T) /\ ~HasUnion(Collapse(ev.T)) THEN VGetItem(ev.v, Collapse(ev.T), ev.args.items) ELSE
  IF HasUnion(ev.T) /\ ~UnionSafe(ev) THEN Unspec ELSE
  LET a == ev.args IN
  CASE ev.op = "num" -> VAxisOp([n |-> "num"], ev.v, ev.T, a.axis)
    [] ev.op = "localindex" -> VAxisOp([n |-> "localindex"], ev.v, ev.T, a.axis)
    [] ev.op = "flatten" -> IF a.axis = AxisNone THEN VFlattenAll(ev.v, ev.T)
                            ELSE LET r == VFlatten(ev.v, ev.T, a.axis) IN
                                 \* ak.flatten documents its own axis=0: only the missing values at the top level go
                                 IF r.ok = 0 /\ AxisWrap(ev.T, a.axis, 0) = 0
                                 THEN May(VList(Select(ev.v.xs, LAMBDA e : ~IsNone(e)))) ELSE r
    [] ev.op = "pad" -> VAxisOp([n |-> "pad", target |-> a.target, clip |-> a.clip], ev.v, ev.T, a.axis)
    [] ev.op = "comb" -> IF a.n < 1 THEN Err ELSE VAxisOp([n |-> "comb", k |-> a.n, repl |-> a.repl], ev.v, ev.T, a.axis)
    [] ev.op = "reduce" -> IF a.axis = AxisNone THEN VReduceAll(ev.v, ev.T, a.reducer)
                           ELSE VReduce(ev.v, ev.T, a.reducer, a.axis, a.mask, a.keepdims)
    [] ev.op \in {"sort", "argsort"} -> VSort(ev.v, ev.T, a.axis, a.asc, IF ev.op = "argsort" THEN 1 ELSE 0)
    [] ev.op = "fillnone" -> VFillNone(ev.v, ev.T, a.axis, a.val)
    [] ev.op = "isnone" -> VIsNone(ev.v, ev.T, a.axis)
    [] ev.op = "mask" -> VMask(ev.v, a.m, a.vw)
    [] ev.op = "singletons" -> VSingletons(ev.v, ev.T)
    [] ev.op = "firsts" -> VFirsts(ev.v, ev.T)
    [] ev.op = "concat0" -> Ok(VList(ev.v.xs \o ev.v.xs))
    \* the second operand's record fields are stored in another order: same records, matched by NAME (C08)
    \* ANOTHER array (any type) appended: the elements of the first followed by those of the second, each unchanged (C08)
    [] ev.op = "concat2" -> Ok(VList(ev.v.xs \o a.w.xs))
    \* three operands in one call: x, another array, x again
    [] ev.op = "concat3" -> Ok(VList(ev.v.xs \o a.w.xs \o ev.v.xs))
    [] ev.op = "concatperm" -> Ok(VList(ev.v.xs \o ev.v.xs))
    \* broadcast_arrays(A, A with its fields declared in the opposite order): fields pair by name, so the second output,
    \* read back in A's field order, is A (C04)
    [] ev.op = "like" -> VLike(ev.v, ev.T, a.c)
    [] ev.op = "nantonum" -> VNanToNum(ev.v, ev.T)
    [] ev.op = "bcperm" -> Ok(ev.v)
    \* A[items] through the Python layer's __getitem__ (C01): the same law as the C++ getitem
    [] ev.op = "slice" -> VGetItem(ev.v, ev.T, a.items)
    \* A[argsort(A, axis=1)] is sort(A, axis=1): a jagged index produced by the library itself (C01, C06)
    \* (stated for lists of numbers only: with fixed-size dimensions the index follows NumPy's rules instead, with more
    \*  levels it is not a law, and argsort's own deviations on option-type leaves are findings of C06)
    [] ev.op = "sortbyarg" -> IF ev.T.k = "var" /\ ev.T.x.k = "num" /\ Len(ev.v.xs) > 0
                              THEN VSort(ev.v, ev.T, 1, 1, 0) ELSE Unspec
    [] ev.op = "concat1" -> VConcatSelf1(ev.v, ev.T)
    [] ev.op = "zip" -> VZipSelf(ev.v, ev.T)
    [] ev.op = "unflatten" -> VUnflattenLaw(ev.v, ev.T)
    [] ev.op = "cartesian" -> VCartSelf(ev.v, ev.T)
    [] ev.op = "argcomb" -> IF a.n < 1 THEN Err ELSE VAxisOp([n |-> "argcomb", k |-> a.n, repl |-> a.repl], ev.v, ev.T, a.axis)
    [] ev.op = "field" -> VGetItem(ev.v, ev.T, <<Field(a.key)>>)
    [] ev.op = "withfield_b" -> VWithFieldBroadcast(ev.v, ev.T, a.new, a.vals)
    [] ev.op = "withfield" -> VWithFieldSelf(ev.v, ev.T, a.key, a.new)
    [] ev.op = "withslot" -> VWithSlot(ev.v, ev.T, a.slot, a.vals)
    [] ev.op = "unzip" -> VUnzipLaw(ev.v, ev.T)
    [] ev.op = "ufunc" -> VUfunc(ev.v, ev.T, a.mul = 1)
    \* x + mask(x, m): the sum where both are present, None where either is missing (C04)
    [] ev.op = "addmasked" -> LET r == VUfunc(ev.v, ev.T, FALSE) IN
                              IF r.ok # 1 \/ Len(a.m) # Len(ev.v.xs) THEN (IF r.ok = 1 THEN Unspec ELSE r)
                              ELSE Ok(VList([k \in 1..Len(a.m) |-> IF a.m[k] = a.vw THEN r.v.xs[k] ELSE VNone]))
    [] ev.op = "filter" -> VFilter(ev.v, ev.T, a.k)
    \* round trips through the conversion functions: everything reachable survives (C14, C15, C16)
    \* (JSON and from_iter go through the ArrayBuilder, which UNIFIES records of different field sets into one record type
    \*  with missing fields -- Builder!Unify, C14 -- so a union of record types does not come back as it went)
    [] ev.op \in {"rt_json", "rt_iter"} -> IF HasUnion(ev.T) /\ HasRecT(ev.T) THEN Unspec ELSE Ok(ev.v)
    [] ev.op \in {"rt_buffers", "rt_pickle", "rt_arrow", "rt_numpy"} -> Ok(ev.v)
    [] ev.op = "same" -> Ok(ev.v)
    [] ev.op = "maysame" -> May(ev.v)                  \* to_regular: refuses lists of unequal lengths

PInit == tid = 1 /\ l = 1 /\ rejected = 0 /\ prev = NoPrev

Event ==
  /\ tid <= Len(Traces) /\ l <= Len(Traces[tid])
  /\ LET ev == Traces[tid][l]
         r == Expected(ev)
         linked == prev = NoPrev \/ prev = ev.v
         conforms == CASE r.ok = 3 -> TRUE
                       [] r.ok = 0 -> ev.ok = 0
                       [] r.ok = 2 -> ev.ok = 0 \/ ev.out = r.v
                       [] r.ok = 1 -> ev.ok = 1 /\ ev.out = r.v
     IN IF linked /\ conforms
        THEN /\ l' = l + 1 /\ prev' = (IF ev.ok = 1 THEN ev.out ELSE ev.v) /\ UNCHANGED <<tid, rejected>>
        ELSE /\ PrintT(<<"TRACE-REJECTED", tid, l, IF linked THEN "outcome not allowed by the specification" ELSE "events not linked",
                         ToJson([op |-> ev.op, args |-> ev.args, spec |-> r, logged_ok |-> ev.ok])>>)
             /\ tid' = tid + 1 /\ l' = 1 /\ prev' = NoPrev /\ rejected' = rejected + 1

NextTrace ==
  /\ tid <= Len(Traces) /\ l > Len(Traces[tid])
  /\ tid' = tid + 1 /\ l' = 1 /\ prev' = NoPrev /\ UNCHANGED rejected

Report ==
  /\ tid = Len(Traces) + 1
  /\ PrintT(<<"TRACES-CHECKED", Len(Traces), "rejected", rejected>>)
  /\ tid' = tid + 1 /\ UNCHANGED <<l, rejected, prev>>

PNext == Event \/ NextTrace \/ Report
=============================================================================
