------------------------------- MODULE Buffers -------------------------------
(***************************************************************************)
(* C16: ak.to_buffers / ak.from_buffers (and therefore pickling) as a pair *)
(* of functions between layouts and (form, length, container).             *)
(*                                                                         *)
(* ToBuffers writes one buffer per Index / data attribute of every node,   *)
(* keyed by the node's position in the tree (form_key "node<i>" in the     *)
(* code; here the path of child indexes) and the attribute name -- whole   *)
(* buffers, including content no list reaches.  FromBuffers gets only the  *)
(* form, the top-level length and the container, so it has to RECOMPUTE    *)
(* the length of every nested node from the index buffers above it; the    *)
(* rules below are transcribed from _form_to_layout in                     *)
(* src/awkward/operations/convert.py.  TLC checks on every valid layout    *)
(* of the bound that the recomputed lengths lose nothing reachable:        *)
(*     ToList(FromBuffers(ToBuffers(L))) = ToList(L)  and the type is kept *)
(* and the replayer checks the same round trip on the real functions       *)
(* (dict container, bytes-only container, pickle).                         *)
(***************************************************************************)
EXTENDS AkLayout

\* ---------------------------------------------------------------- forms: the layout tree without its buffers
RECURSIVE FormOf(_)
FormOf(L) ==
  CASE L.c = "Numpy" -> [c |-> "Numpy", dt |-> L.dt]
    [] L.c = "Empty" -> [c |-> "Empty"]
    [] L.c = "Str" -> [c |-> "Str", bs |-> L.bs]
    [] L.c = "Regular" -> [c |-> "Regular", size |-> L.size, x |-> FormOf(L.x)]
    [] L.c \in {"ListOffset", "List", "Indexed", "IndexedOption", "Unmasked"} -> [c |-> L.c, x |-> FormOf(L.x)]
    [] L.c = "ByteMasked" -> [c |-> L.c, vw |-> L.vw, x |-> FormOf(L.x)]
    [] L.c = "BitMasked" -> [c |-> L.c, vw |-> L.vw, lsb |-> L.lsb, x |-> FormOf(L.x)]
    [] L.c = "Record" -> [c |-> L.c, names |-> L.names, tuple |-> L.tuple, xs |-> [j \in 1..Len(L.xs) |-> FormOf(L.xs[j])]]
    [] L.c = "Union" -> [c |-> L.c, xs |-> [j \in 1..Len(L.xs) |-> FormOf(L.xs[j])]]

\* ---------------------------------------------------------------- to_buffers: a set of [path, attr, data] entries
Entry(path, attr, data) == [path |-> path, attr |-> attr, data |-> data]
RECURSIVE Container(_, _)
Container(L, path) ==
  CASE L.c = "Numpy" -> {Entry(path, "data", L.d)}
    [] L.c = "Empty" -> {}
    [] L.c = "Str" -> {Entry(path, "offsets", L.o), Entry(path \o <<1>>, "data", L.d)}
    [] L.c = "Regular" -> Container(L.x, path \o <<1>>)
    [] L.c = "ListOffset" -> {Entry(path, "offsets", L.o)} \cup Container(L.x, path \o <<1>>)
    [] L.c = "List" -> {Entry(path, "starts", L.s), Entry(path, "stops", L.e)} \cup Container(L.x, path \o <<1>>)
    [] L.c \in {"Indexed", "IndexedOption"} -> {Entry(path, "index", L.i)} \cup Container(L.x, path \o <<1>>)
    [] L.c \in {"ByteMasked", "BitMasked"} -> {Entry(path, "mask", L.m)} \cup Container(L.x, path \o <<1>>)
    [] L.c = "Unmasked" -> Container(L.x, path \o <<1>>)
    [] L.c = "Record" -> UNION {Container(L.xs[j], path \o <<j>>) : j \in 1..Len(L.xs)}
    [] L.c = "Union" -> {Entry(path, "tags", L.t), Entry(path, "index", L.i)}
                        \cup UNION {Container(L.xs[j], path \o <<j>>) : j \in 1..Len(L.xs)}

ToBuffers(L) == [form |-> FormOf(L), length |-> LLen(L), container |-> Container(L, <<>>)]

\* ---------------------------------------------------------------- from_buffers
Buf(C, path, attr) == (CHOOSE e \in C : e.path = path /\ e.attr = attr).data
Has(C, path, attr) == \E e \in C : e.path = path /\ e.attr = attr
Bad == [c |-> "Bad"]
IsBad(L) == L.c = "Bad"
MaxOr0(s) == IF s = <<>> THEN 0 ELSE SeqMax(s)

RECURSIVE FromBuffers(_, _, _, _)
FromBuffers(F, n, C, path) ==
  CASE F.c = "Numpy" ->
         LET d == Buf(C, path, "data") IN IF Len(d) < n THEN Bad ELSE Numpy(F.dt, d)      \* the whole buffer is viewed
    [] F.c = "Empty" -> IF n # 0 THEN Bad ELSE EmptyL
    [] F.c = "Str" ->
         LET o == Buf(C, path, "offsets")  d == Buf(C, path \o <<1>>, "data") IN
         IF n > Len(o) - 1 \/ Len(d) < o[Len(o)] THEN Bad ELSE StrL(o, d, F.bs)
    [] F.c = "Regular" ->
         LET x == FromBuffers(F.x, n * F.size, C, path \o <<1>>) IN
         IF IsBad(x) THEN Bad ELSE Regular(F.size, n, x)
    [] F.c = "ListOffset" ->
         LET o == Buf(C, path, "offsets") IN
         IF n > Len(o) - 1 THEN Bad
         ELSE LET x == FromBuffers(F.x, o[Len(o)], C, path \o <<1>>) IN IF IsBad(x) THEN Bad ELSE ListOffset(o, x)
    [] F.c = "List" ->
         LET s == Buf(C, path, "starts")  e == Buf(C, path, "stops") IN
         IF n > Len(s) \/ n > Len(e) THEN Bad
         ELSE LET nonempty == Select([k \in 1..n |-> k], LAMBDA k : s[k] # e[k])
                  need == MaxOr0([q \in 1..Len(nonempty) |-> e[nonempty[q]]])
                  x == FromBuffers(F.x, need, C, path \o <<1>>)
              \* (starts/stops are cut to the n lists the content was sized for -- finding F71 was the code keeping them whole)
              IN IF IsBad(x) THEN Bad ELSE ListA(SubSeq(s, 1, n), SubSeq(e, 1, n), x)
    [] F.c = "Indexed" ->
         LET i == Buf(C, path, "index") IN
         IF n > Len(i) THEN Bad
         ELSE LET x == FromBuffers(F.x, IF i = <<>> THEN 0 ELSE SeqMax(i) + 1, C, path \o <<1>>) IN
              IF IsBad(x) THEN Bad ELSE Indexed(i, x)
    [] F.c = "IndexedOption" ->
         LET i == Buf(C, path, "index") IN
         IF n > Len(i) THEN Bad
         ELSE LET x == FromBuffers(F.x, IF i = <<>> THEN 0 ELSE Max2(0, SeqMax(i) + 1), C, path \o <<1>>) IN
              IF IsBad(x) THEN Bad ELSE IndexedOption(i, x)
    [] F.c = "ByteMasked" ->
         LET m == Buf(C, path, "mask") IN
         IF n > Len(m) THEN Bad
         ELSE LET x == FromBuffers(F.x, n, C, path \o <<1>>) IN IF IsBad(x) THEN Bad ELSE ByteMasked(SubSeq(m, 1, n), F.vw, x)     \* (F79)
    [] F.c = "BitMasked" ->
         LET m == Buf(C, path, "mask")
             x == FromBuffers(F.x, n, C, path \o <<1>>) IN
         IF IsBad(x) \/ n > Len(m) * 8 THEN Bad ELSE BitMasked(m, F.vw, F.lsb, n, x)
    [] F.c = "Unmasked" ->
         LET x == FromBuffers(F.x, n, C, path \o <<1>>) IN IF IsBad(x) THEN Bad ELSE Unmasked(x)
    [] F.c = "Record" ->
         LET xs == [j \in 1..Len(F.xs) |-> FromBuffers(F.xs[j], n, C, path \o <<j>>)] IN
         IF \E j \in 1..Len(xs) : IsBad(xs[j]) THEN Bad ELSE RecordL(F.names, F.tuple, n, xs)
    [] F.c = "Union" ->
         LET t == Buf(C, path, "tags")  i == Buf(C, path, "index") IN
         IF n > Len(t) \/ n > Len(i) THEN Bad
         ELSE LET mine(k) == Select([q \in 1..n |-> q], LAMBDA q : t[q] = k - 1)
                  need(k) == IF mine(k) = <<>> THEN 0 ELSE SeqMax([q \in 1..Len(mine(k)) |-> i[mine(k)[q]]]) + 1
                  xs == [k \in 1..Len(F.xs) |-> FromBuffers(F.xs[k], need(k), C, path \o <<k>>)]
              IN IF \E k \in 1..Len(xs) : IsBad(xs[k]) THEN Bad ELSE UnionL(SubSeq(t, 1, n), SubSeq(i, 1, n), xs)      \* (F77)

RoundTrip(L) == LET b == ToBuffers(L) IN FromBuffers(b.form, b.length, b.container, <<>>)

\* ---------------------------------------------------------------- the design-level theorem (checked by TLC in Session)
BuffersLossless(L) ==
  LET R == RoundTrip(L) IN
  /\ ~IsBad(R)
  /\ ToList(R) = ToList(L)       \* (entries of a record's contents beyond the record length may point outside the
                                \*  re-cut content: they are unreachable and the library does not validate them)
  /\ TypeOf(R) = TypeOf(L)
=============================================================================
