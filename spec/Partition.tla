------------------------------ MODULE Partition ------------------------------
(***************************************************************************)
(* C18, second half: an IrregularlyPartitionedArray over n elements is a   *)
(* nondecreasing sequence of stops ending at n (equal neighbours are empty *)
(* partitions).  Every operation must give what it gives on the            *)
(* concatenation; Locate is the position -> (partition, local index) map   *)
(* of partitionid_index_at, checked total and in range by TLC.  TLC        *)
(* enumerates ALL splittings x operation sequences x repartitionings up to *)
(* the bound and exports each behaviour; the replayer runs it on the C++   *)
(* class and compares every observation with the same operation on the     *)
(* whole array.                                                            *)
(***************************************************************************)
EXTENDS Naturals, Integers, Sequences, FiniteSets, TLC, Json

CONSTANTS PartN,        \* length of the partitioned array
          PartMax,      \* maximal number of partitions
          RangeSteps,   \* strides tried by Range (a stride >= 3 makes getitem_range_nowrap carry a phase across partitions)
          HLOps,        \* names of high-level functions applied to the partitioned array (Python layer; {} on the C++ class)
          MaxSteps, EmitOn

VARIABLES stops, first, hist, done
pvars == <<stops, first, hist, done>>

Splits(n, k) == {s \in [1..k -> 0..n] : s[k] = n /\ \A j \in 1..(k - 1) : s[j] <= s[j + 1]}
AllSplits == UNION {Splits(PartN, k) : k \in 1..PartMax}
StartOf(s, p) == IF p = 1 THEN 0 ELSE s[p - 1]
\* global position -> (partition, local index): the first partition whose stop exceeds the position
Locate(s, at) == LET p == CHOOSE q \in 1..Len(s) : at < s[q] /\ \A r \in 1..(q - 1) : s[r] <= at
                 IN <<p, at - StartOf(s, p)>>

PInit == stops = <<>> /\ first = <<>> /\ hist = <<>> /\ done = FALSE
ChooseSplit == stops = <<>> /\ stops' \in AllSplits /\ first' = stops' /\ UNCHANGED <<hist, done>>
Ready == stops # <<>> /\ ~done /\ Len(hist) < MaxSteps
At == Ready /\ \E i \in (-PartN - 1)..PartN :
        hist' = Append(hist, [op |-> "at", i |-> i, exp |-> IF i >= -PartN /\ i < PartN THEN "same" ELSE "error"]) /\ UNCHANGED <<stops, first, done>>
Range == Ready /\ \E a \in {-1, 0, 1, PartN}, b \in {0, 2, PartN, PartN + 1}, st \in RangeSteps :
        hist' = Append(hist, [op |-> "range", a |-> a, b |-> b, s |-> st, exp |-> "same"]) /\ UNCHANGED <<stops, first, done>>
Whole == Ready /\ \E o \in {"length", "tojson"} : hist' = Append(hist, [op |-> o, exp |-> "same"]) /\ UNCHANGED <<stops, first, done>>
Repartition == Ready /\ \E ns \in AllSplits : ns # stops /\ stops' = ns
                 /\ hist' = Append(hist, [op |-> "repartition", stops |-> ns, exp |-> "same"]) /\ UNCHANGED <<first, done>>
\* a high-level function of the library (ak.flatten, ak.num, reducers, ufuncs, ...) on the partitioned array: the same value as
\* on the concatenation, and a result that is itself consistent (length, items one by one, validity)
HighLevel == Ready /\ \E o \in HLOps : hist' = Append(hist, [op |-> "hl", f |-> o, exp |-> "same"]) /\ UNCHANGED <<stops, first, done>>
Finish == stops # <<>> /\ ~done /\ Len(hist) = MaxSteps /\ done' = TRUE /\ UNCHANGED <<stops, first, hist>>
PNext == ChooseSplit \/ At \/ Range \/ Whole \/ Repartition \/ HighLevel \/ Finish

\* partitionid_index_at is total on 0..n-1 and lands inside the partition it names
LocateInRange == stops # <<>> => \A at \in 0..(PartN - 1) :
                   LET l == Locate(stops, at) IN l[2] >= 0 /\ l[2] < stops[l[1]] - StartOf(stops, l[1])
\* partitions tile the array: consecutive positions map to consecutive (partition, index) pairs
Tiling == stops # <<>> => \A at \in 0..(PartN - 2) :
            LET l == Locate(stops, at)  m == Locate(stops, at + 1) IN
            (m[1] = l[1] /\ m[2] = l[2] + 1) \/ (m[1] > l[1] /\ m[2] = 0)

PEmit == (EmitOn /\ done' /\ ~done) =>
           PrintT(<<"CASE", ToJson([act |-> "partition", stops |-> first, steps |-> hist])>>)
PView == <<stops, first, hist, done>>
=============================================================================
