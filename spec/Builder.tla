------------------------------ MODULE Builder ------------------------------
(***************************************************************************)
(* ArrayBuilder as a state machine over its command alphabet (C14).        *)
(*                                                                         *)
(* The VALUE machine runs in lock-step with the command history:           *)
(*   done  completed top-level values, in order                            *)
(*   open  stack of open containers (list / record / tuple frames)         *)
(* A snapshot must show Unify(done): the completed top-level items after   *)
(* the documented unification (same-named or unnamed records met at the    *)
(* same position share one record type: fields in order of first           *)
(* appearance, absent fields None; numbers, None, lists and unions keep    *)
(* their values).  Ill-nested commands are exactly those for which the     *)
(* meaning below is undefined; they must raise.  The builder's state after *)
(* an error is unspecified, so a behaviour ends at its first error.        *)
(*                                                                         *)
(* Every maximal behaviour is exported with the expected observation after *)
(* each command and replayed against the C++ ArrayBuilder and against the  *)
(* extern "C" awkward_ArrayBuilder_* functions, re-reading all earlier     *)
(* snapshots at the end (immutability).                                    *)
(***************************************************************************)
EXTENDS AkValue, Json

CONSTANTS Alphabet,     \* set of command records
          MaxCmds,      \* length bound of a behaviour
          MaxOpen,      \* nesting bound (number of simultaneously open containers)
          WellNestedOnly, \* BOOLEAN: explore only behaviours without ill-nested commands (deep directed phases)
          Allowed(_, _),  \* Allowed(history, c): syntactic filter of a directed phase (TRUE in the general phases)
          EmitOn

VARIABLES cmds, done, open, obs, phase
bvars == <<cmds, done, open, obs, phase>>

Snapshot == VList(Unify(done))

\* the values of the arrays that "append" commands take elements from (harness: the same values as an IndexedArray64 /
\* IndexedArray32 with a permuting index, an IndexedOptionArray64, a ListOffsetArray64 with a non-zero origin)
SrcVals == [idx64 |-> <<VInt(30), VInt(10), VInt(20)>>, idx32 |-> <<VInt(30), VInt(10), VInt(20)>>,
            opt |-> <<VNone, VInt(6), VInt(5)>>, lists |-> <<VList(<<VInt(2)>>), VList(<<>>), VList(<<VInt(3), VInt(4)>>)>>]

\* ---------------------------------------------------------------- frames
LFrame == [k |-> "list", xs |-> <<>>]
RFrame(nm) == [k |-> "rec", nm |-> nm, ks |-> <<>>, vs |-> <<>>, cur |-> 0]
TFrame(n) == [k |-> "tup", n |-> n, vs |-> [j \in 1..n |-> <<>>], cur |-> -1]
Top == open[Len(open)]
\* may a value (or a begin...) be placed now?
CanPut == open = <<>> \/ Top.k = "list" \/ (Top.k = "rec" /\ Top.cur # 0) \/ (Top.k = "tup" /\ Top.cur # -1)
\* place a completed value into the innermost open container of `stack` (or into `dn`)
PutInto(stack, dn, x) ==
  IF stack = <<>> THEN [open |-> <<>>, done |-> dn \o <<x>>]
  ELSE LET f == stack[Len(stack)]
           f2 == CASE f.k = "list" -> [f EXCEPT !.xs = @ \o <<x>>]
                   [] f.k = "rec" -> [f EXCEPT !.vs[f.cur] = @ \o <<x>>]
                   [] f.k = "tup" -> [f EXCEPT !.vs[f.cur + 1] = @ \o <<x>>]
       IN [open |-> [stack EXCEPT ![Len(stack)] = f2], done |-> dn]

\* the effect of one command: [ok, open, done]
Effect(c) ==
  LET bad == [ok |-> 0, open |-> open, done |-> done]
      good(r) == [ok |-> 1, open |-> r.open, done |-> r.done]
      value(x) == IF CanPut THEN good(PutInto(open, done, x)) ELSE bad
      push(f) == IF CanPut THEN [ok |-> 1, open |-> open \o <<f>>, done |-> done] ELSE bad
      below == SubSeq(open, 1, Len(open) - 1)
  IN CASE c.c = "null" -> value(VNone)
       [] c.c = "bool" -> value(VBool(c.x))
       [] c.c = "int" -> value(VInt(c.x))
       [] c.c = "real" -> value(VReal(c.n, c.d))
       [] c.c = "str" -> value(VStr(c.b))
       \* append(array, at): the element `at` of an existing array is placed as one value (ArrayBuilder::append; extend is
       \* append for every position).  The sources are fixed arrays of several classes holding SrcVals.
       [] c.c = "append" -> IF c.at >= 0 /\ c.at < Len(SrcVals[c.src]) THEN value(SrcVals[c.src][c.at + 1]) ELSE bad
       [] c.c = "beginlist" -> push(LFrame)
       [] c.c = "endlist" ->
            IF open # <<>> /\ Top.k = "list" THEN good(PutInto(below, done, VList(Top.xs))) ELSE bad
       [] c.c = "beginrecord" -> push(RFrame(c.name))
       [] c.c = "field" ->
            IF open # <<>> /\ Top.k = "rec" THEN
                 LET f == Top
                     have == \E q \in 1..Len(f.ks) : f.ks[q] = c.key
                     f2 == IF have THEN [f EXCEPT !.cur = CHOOSE q \in 1..Len(f.ks) : f.ks[q] = c.key]
                           ELSE [f EXCEPT !.ks = @ \o <<c.key>>, !.vs = @ \o << <<>> >>, !.cur = Len(f.ks) + 1]
                 IN [ok |-> 1, open |-> [open EXCEPT ![Len(open)] = f2], done |-> done]
            ELSE bad
       [] c.c = "endrecord" ->
            IF open # <<>> /\ Top.k = "rec" THEN
                 IF \E q \in 1..Len(Top.ks) : Len(Top.vs[q]) > 1 THEN bad          \* field filled more than once
                 ELSE good(PutInto(below, done,
                        BRec(Top.nm, Top.ks, [q \in 1..Len(Top.ks) |-> IF Top.vs[q] = <<>> THEN VNone ELSE Top.vs[q][1]])))
            ELSE bad
       [] c.c = "begintuple" -> push(TFrame(c.n))
       [] c.c = "index" ->
            IF open # <<>> /\ Top.k = "tup" /\ c.i >= 0 /\ c.i < Top.n
            THEN [ok |-> 1, open |-> [open EXCEPT ![Len(open)] = [Top EXCEPT !.cur = c.i]], done |-> done]
            ELSE bad
       [] c.c = "endtuple" ->
            IF open # <<>> /\ Top.k = "tup" THEN
                 IF \E q \in 1..Top.n : Len(Top.vs[q]) > 1 THEN bad
                 ELSE good(PutInto(below, done,
                        BTup([q \in 1..Top.n |-> IF Top.vs[q] = <<>> THEN VNone ELSE Top.vs[q][1]])))
            ELSE bad
       \* clear() "removes all accumulated data": with containers still open its meaning is not documented
       [] c.c = "clear" -> IF open = <<>> THEN [ok |-> 1, open |-> <<>>, done |-> <<>>]
                           ELSE [ok |-> 3, open |-> open, done |-> done]
       [] c.c = "snapshot" -> [ok |-> 1, open |-> open, done |-> done]

BInit == cmds = <<>> /\ done = <<>> /\ open = <<>> /\ obs = <<>> /\ phase = "run"

Step(c) ==
  /\ phase = "run" /\ Len(cmds) < MaxCmds
  /\ (c.c \in {"beginlist", "beginrecord", "begintuple"} => Len(open) < MaxOpen)
  /\ (WellNestedOnly => Effect(c).ok = 1)
  /\ Allowed(cmds, c)
  /\ LET e == Effect(c) IN
       /\ cmds' = cmds \o <<c>>
       /\ open' = e.open /\ done' = e.done
       /\ obs' = obs \o <<IF e.ok = 1 THEN [ok |-> 1, v |-> VList(Unify(e.done))] ELSE [ok |-> e.ok, v |-> VNone]>>
       /\ phase' = IF e.ok # 1 \/ Len(cmds) + 1 = MaxCmds THEN "end" ELSE "run"

BNext == \E c \in Alphabet : Step(c)
BSpec == BInit /\ [][BNext]_bvars

\* ---------------------------------------------------------------- properties of the design
\* only completed top-level items are visible, and their number is the number of completed items
SnapshotLength == Len(Unify(done)) = Len(done)
\* unification never changes a number, a missing value, a string, or the length of a list
RECURSIVE SameShape(_, _)
SameShape(a, b) == CASE a.t = "list" -> b.t = "list" /\ Len(a.xs) = Len(b.xs) /\ \A k \in 1..Len(a.xs) : SameShape(a.xs[k], b.xs[k])
                     [] a.t = "rec" -> b.t = "rec" /\ \A q \in 1..Len(a.ks) :
                                          \E p \in 1..Len(b.ks) : b.ks[p] = a.ks[q] /\ SameShape(a.vs[q], b.vs[p])
                     [] OTHER -> a = b
UnifyKeepsValues == \A k \in 1..Len(done) : SameShape(done[k], Unify(done)[k])
\* snapshots are a function of the completed items only (equal states give equal snapshots)
\* -- trivially true of this functional model; named because the replayer checks it on the code.
\* an error never changes the value machine
ErrorsLeaveState == [][(phase' = "end" /\ obs'[Len(obs')].ok = 0) => (done' = done /\ open' = open)]_bvars

BEmit == (EmitOn /\ phase' = "end") =>
           PrintT(<<"CASE", ToJson([act |-> "builder", cmds |-> cmds', obs |-> obs'])>>)
BView == <<cmds, phase>>
=============================================================================
