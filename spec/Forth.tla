------------------------------ MODULE Forth ------------------------------
(***************************************************************************)
(* AwkwardForth (C19): the documented semantics as a big-step interpreter  *)
(* over program ASTs, and a machine that BUILDS programs by actions so     *)
(* that TLC enumerates all programs of the tier's vocabulary up to a size  *)
(* bound.  Each program is exported with its expected final state          *)
(*   (error code, data stack, variables, output, input position)           *)
(* and replayed into ForthMachine32/64 under several execution schedules   *)
(* (run / begin + step* / pause-resume variants / different output growth  *)
(* settings / the decompiled source): all must reach this same state.      *)
(*                                                                         *)
(* `exit` (leave the user-defined word) is specified since finding F85.     *)
(* Instructions (records):                                                 *)
(*   [k |-> "lit", x]            integer literal                           *)
(*   [k |-> "w", w]              builtin word (dup drop swap over rot nip  *)
(*                               tuck + - * / mod /mod negate 1+ 1- abs    *)
(*                               min max = <> > >= < <= 0= invert and or   *)
(*                               xor true false i j halt)                  *)
(*   [k |-> "if", a, b, el]      a if-branch, b else-branch (el = 1)       *)
(*   [k |-> "do", body, st]      do ... loop (st = 0) / +loop (st = 1)     *)
(*   [k |-> "until", body]       begin body until                          *)
(*   [k |-> "while", c, body]    begin c while body repeat                 *)
(*   [k |-> "get"|"put"|"inc"]   variable x @ / x ! / x +!                 *)
(*   [k |-> "call"]              the user-defined word f (body = Def)      *)
(*   [k |-> "read", ty]          data <ty>-> stack   (b B h !h H !H varint zigzag) *)
(*   [k |-> "in", w]             data len | pos | end | seek | skip        *)
(*   [k |-> "write"|"writeadd"|"outlen"|"rewind"]   output y (int32)       *)
(* Numbers stay small in the enumerated programs, so no wrap-around occurs *)
(* inside TLC's integers; wrap-around at the machine width is pinned       *)
(* separately by the replayer's width-differential cases.                  *)
(***************************************************************************)
EXTENDS Naturals, Integers, Sequences, FiniteSets, TLC, Json

CONSTANTS Prims,        \* set of primitive instructions that may be appended
          Ctrl,         \* subset of {"if", "ifelse", "do", "+do", "until", "while", "def"} : structures that may be wrapped
          MaxLen,       \* bound on the number of instructions (counted recursively)
          StackMax,     \* machine's stack_max_depth
          RecMax,       \* machine's recursion_max_depth
          Input,        \* the bytes of input "data"
          Fuel,         \* evaluation budget; programs that exceed it are not exported
          EmitOn

Lit(x) == [k |-> "lit", x |-> x]
W(w)   == [k |-> "w", w |-> w]

RECURSIVE Size(_)
Size(p) == IF p = <<>> THEN 0
           ELSE LET h == Head(p) IN
                (CASE h.k = "if" -> 1 + Size(h.a) + Size(h.b)
                   [] h.k = "do" -> 1 + Size(h.body)
                   [] h.k = "until" -> 1 + Size(h.body)
                   [] h.k = "while" -> 1 + Size(h.c) + Size(h.body)
                   [] OTHER -> 1) + Size(Tail(p))

\* ---------------------------------------------------------------- arithmetic
FloorDiv(a, b) == IF b > 0 THEN a \div b ELSE (-a) \div (-b)
FloorMod(a, b) == a - b * FloorDiv(a, b)
Bool(p) == IF p THEN -1 ELSE 0
Abs(a) == IF a < 0 THEN -a ELSE a
\* bitwise and/or/xor on two's-complement integers of any sign, from the non-negative case
RECURSIVE BitNN(_, _, _)
BitNN(op, a, b) ==      \* a, b >= 0
  IF a = 0 /\ b = 0 THEN 0
  ELSE LET ba == a % 2  bb == b % 2
           bit == CASE op = "and" -> IF ba = 1 /\ bb = 1 THEN 1 ELSE 0
                    [] op = "or" -> IF ba = 1 \/ bb = 1 THEN 1 ELSE 0
                    [] op = "xor" -> IF ba # bb THEN 1 ELSE 0
       IN bit + 2 * BitNN(op, a \div 2, b \div 2)
Not(x) == -1 - x
BitOp(op, a, b) ==
  CASE a >= 0 /\ b >= 0 -> BitNN(op, a, b)
    [] a < 0 /\ b >= 0 ->
         (CASE op = "and" -> b - BitNN("and", b, Not(a))
            [] op = "or" -> Not(Not(a) - BitNN("and", Not(a), b))
            [] op = "xor" -> Not(BitNN("xor", Not(a), b)))
    [] a >= 0 /\ b < 0 ->
         (CASE op = "and" -> a - BitNN("and", a, Not(b))
            [] op = "or" -> Not(Not(b) - BitNN("and", Not(b), a))
            [] op = "xor" -> Not(BitNN("xor", Not(b), a)))
    [] OTHER ->
         (CASE op = "and" -> Not(BitNN("or", Not(a), Not(b)))
            [] op = "or" -> Not(BitNN("and", Not(a), Not(b)))
            [] op = "xor" -> BitNN("xor", Not(a), Not(b)))

\* ---------------------------------------------------------------- machine state
\* st: data stack (top = last); doi: do-loop indices (innermost last); depth: segment nesting
S0 == [st |-> <<>>, err |-> "none", x |-> 0, out |-> <<>>, pos |-> 0, doi |-> <<>>, depth |-> 1, fuel |-> Fuel, ret |-> 0]
\* ret = 1: the word `exit` has been executed and the user-defined word is being left (nothing else runs until the call returns;
\* the do-loops the word had started are abandoned, those of the caller stay)
Fail(S, e) == [S EXCEPT !.err = e]
Ok(S) == S.err = "none"
N(S) == Len(S.st)
Top(S, k) == S.st[N(S) - k + 1]                \* k = 1 is the top
Pop(S, k) == [S EXCEPT !.st = SubSeq(S.st, 1, N(S) - k)]
Push(S, v) == [S EXCEPT !.st = S.st \o <<v>>]

\* replace the top k entries by the sequence vs (after checking depth limits)
Big(v) == v > 1000000 \/ v < -1000000      \* beyond this the program is not exported (TLC integers are 32-bit)
Rewrite(S, k, vs) ==
  IF \E q \in 1..Len(vs) : Big(vs[q]) THEN Fail(S, "FUEL")
  ELSE IF N(S) < k THEN Fail(S, "stack_underflow")
  ELSE IF N(S) - k + Len(vs) > StackMax THEN Fail(S, "stack_overflow")
  ELSE [S EXCEPT !.st = SubSeq(S.st, 1, N(S) - k) \o vs]

Prim(S, w) ==
  LET a == IF N(S) >= 2 THEN Top(S, 2) ELSE 0      \* second from top
      b == IF N(S) >= 1 THEN Top(S, 1) ELSE 0      \* top
      c == IF N(S) >= 3 THEN Top(S, 3) ELSE 0
  IN CASE w = "dup" -> Rewrite(S, 1, <<b, b>>)
       [] w = "drop" -> Rewrite(S, 1, <<>>)
       [] w = "swap" -> Rewrite(S, 2, <<b, a>>)
       [] w = "over" -> Rewrite(S, 2, <<a, b, a>>)
       [] w = "rot" -> Rewrite(S, 3, <<a, b, c>>)
       [] w = "nip" -> Rewrite(S, 2, <<b>>)
       [] w = "tuck" -> Rewrite(S, 2, <<b, a, b>>)
       [] w = "+" -> Rewrite(S, 2, <<a + b>>)
       [] w = "-" -> Rewrite(S, 2, <<a - b>>)
       [] w = "*" -> Rewrite(S, 2, <<a * b>>)
       [] w = "/" -> IF N(S) < 2 THEN Fail(S, "stack_underflow")
                     ELSE IF b = 0 THEN Fail(S, "division_by_zero") ELSE Rewrite(S, 2, <<FloorDiv(a, b)>>)
       [] w = "mod" -> IF N(S) < 2 THEN Fail(S, "stack_underflow")
                       ELSE IF b = 0 THEN Fail(S, "division_by_zero") ELSE Rewrite(S, 2, <<FloorMod(a, b)>>)
       [] w = "/mod" -> IF N(S) < 2 THEN Fail(S, "stack_underflow")
                        ELSE IF b = 0 THEN Fail(S, "division_by_zero")
                        ELSE Rewrite(S, 2, <<FloorMod(a, b), FloorDiv(a, b)>>)
       [] w = "negate" -> Rewrite(S, 1, <<-b>>)
       [] w = "1+" -> Rewrite(S, 1, <<b + 1>>)
       [] w = "1-" -> Rewrite(S, 1, <<b - 1>>)
       [] w = "abs" -> Rewrite(S, 1, <<Abs(b)>>)
       [] w = "min" -> Rewrite(S, 2, <<IF a < b THEN a ELSE b>>)
       [] w = "max" -> Rewrite(S, 2, <<IF a > b THEN a ELSE b>>)
       [] w = "=" -> Rewrite(S, 2, <<Bool(a = b)>>)
       [] w = "<>" -> Rewrite(S, 2, <<Bool(a # b)>>)
       [] w = ">" -> Rewrite(S, 2, <<Bool(a > b)>>)
       [] w = ">=" -> Rewrite(S, 2, <<Bool(a >= b)>>)
       [] w = "<" -> Rewrite(S, 2, <<Bool(a < b)>>)
       [] w = "<=" -> Rewrite(S, 2, <<Bool(a <= b)>>)
       [] w = "0=" -> Rewrite(S, 1, <<Bool(b = 0)>>)
       [] w = "invert" -> Rewrite(S, 1, <<-1 - b>>)
       [] w = "and" -> Rewrite(S, 2, <<BitOp("and", a, b)>>)
       [] w = "or" -> Rewrite(S, 2, <<BitOp("or", a, b)>>)
       [] w = "xor" -> Rewrite(S, 2, <<BitOp("xor", a, b)>>)
       [] w = "true" -> Rewrite(S, 0, <<-1>>)
       [] w = "false" -> Rewrite(S, 0, <<0>>)
       [] w = "i" -> IF Len(S.doi) >= 1 THEN Rewrite(S, 0, <<S.doi[Len(S.doi)]>>) ELSE Rewrite(S, 0, <<0>>)
       [] w = "j" -> IF Len(S.doi) >= 2 THEN Rewrite(S, 0, <<S.doi[Len(S.doi) - 1]>>) ELSE Rewrite(S, 0, <<0>>)
       [] w = "halt" -> Fail(S, "user_halt")
       [] w = "exit" -> [S EXCEPT !.ret = 1]

\* typed reads of the input bytes (two's complement), little- or big-endian
U8(k) == Input[k + 1]
S8(k) == IF U8(k) >= 128 THEN U8(k) - 256 ELSE U8(k)
U16(k, big) == IF big THEN 256 * U8(k) + U8(k + 1) ELSE U8(k) + 256 * U8(k + 1)
S16(k, big) == IF U16(k, big) >= 32768 THEN U16(k, big) - 65536 ELSE U16(k, big)
\* variable-length integers (LEB128) and their zigzag-signed form.  TLC's integers are 32-bit: the value is assembled from a
\* 28-bit low limb (bytes 1-4) and the 5th byte; encodings longer than 5 bytes, or whose value leaves the 32-bit range on
\* either machine width, are not exported ("FUEL").
VarScan(pos) == LET RECURSIVE go(_)
                    go(k) == IF pos + k >= Len(Input) THEN -1 ELSE IF U8(pos + k) < 128 THEN k + 1 ELSE go(k + 1)
                IN go(0)
VarRead(S, zig) ==
  LET nb == VarScan(S.pos) IN
  IF nb = -1 THEN Fail([S EXCEPT !.pos = Len(Input)], "read_beyond")
  ELSE IF nb > 5 THEN Fail(S, "FUEL")
  ELSE LET b(k) == IF k < nb THEN U8(S.pos + k) % 128 ELSE 0
           low == b(0) + 128 * b(1) + 16384 * b(2) + 2097152 * b(3)
           hi == b(4)
           S2 == [S EXCEPT !.pos = @ + nb]
       IN IF hi > 15 \/ (~zig /\ hi > 7) THEN Fail(S, "FUEL")
          ELSE LET v == IF ~zig THEN hi * 268435456 + low
                        ELSE IF low % 2 = 0 THEN hi * 134217728 + low \div 2
                        ELSE (-(hi * 134217728 + low \div 2)) - 1
               IN IF N(S) + 1 > StackMax THEN Fail(S2, "stack_overflow") ELSE Push(S2, v)
Read(S, ty) ==
  IF ty \in {"varint", "zigzag"} THEN VarRead(S, ty = "zigzag") ELSE
  LET width == IF ty \in {"b", "B"} THEN 1 ELSE 2 IN
  IF S.pos + width > Len(Input) THEN Fail(S, "read_beyond")
  ELSE LET v == CASE ty = "b" -> S8(S.pos) [] ty = "B" -> U8(S.pos)
                  [] ty = "h" -> S16(S.pos, FALSE) [] ty = "!h" -> S16(S.pos, TRUE)
                  [] ty = "H" -> U16(S.pos, FALSE) [] ty = "!H" -> U16(S.pos, TRUE)
           S2 == [S EXCEPT !.pos = @ + width]
       IN IF N(S) + 1 > StackMax THEN Fail(S2, "stack_overflow") ELSE Push(S2, v)
InWord(S, w) ==
  CASE w = "len" -> Rewrite(S, 0, <<Len(Input)>>)
    [] w = "pos" -> Rewrite(S, 0, <<S.pos>>)
    [] w = "end" -> Rewrite(S, 0, <<Bool(S.pos = Len(Input))>>)
    [] w = "seek" -> IF N(S) < 1 THEN Fail(S, "stack_underflow")
                     ELSE LET t == Top(S, 1) IN
                          IF t < 0 \/ t > Len(Input) THEN Fail(Pop(S, 1), "seek_beyond") ELSE [Pop(S, 1) EXCEPT !.pos = t]
    [] w = "skip" -> IF N(S) < 1 THEN Fail(S, "stack_underflow")
                     ELSE LET t == S.pos + Top(S, 1) IN
                          IF t < 0 \/ t > Len(Input) THEN Fail(Pop(S, 1), "skip_beyond") ELSE [Pop(S, 1) EXCEPT !.pos = t]

\* ---------------------------------------------------------------- big-step execution
\* Def: the body of the user word f (a constant of the program being run, passed down)
RECURSIVE Exec(_, _, _), Loop(_, _, _, _, _), Until(_, _, _), While(_, _, _, _)
Enter(S) == IF S.depth >= RecMax THEN Fail(S, "recursion_depth_exceeded") ELSE [S EXCEPT !.depth = @ + 1]
Leave(S) == IF Ok(S) THEN [S EXCEPT !.depth = @ - 1] ELSE S

Exec(p, S, Def) ==
  IF p = <<>> \/ ~Ok(S) \/ S.ret = 1 THEN S
  ELSE IF S.fuel = 0 THEN Fail(S, "FUEL")
  ELSE LET h == Head(p)
           S1 == [S EXCEPT !.fuel = @ - 1]
           R == CASE h.k = "lit" -> Rewrite(S1, 0, <<h.x>>)
                  [] h.k = "w" -> Prim(S1, h.w)
                  [] h.k = "if" ->
                       IF N(S1) < 1 THEN Fail(S1, "stack_underflow")
                       ELSE LET t == Top(S1, 1)  S2 == Pop(S1, 1) IN
                            IF t # 0 THEN Leave(Exec(h.a, Enter(S2), Def))
                            ELSE IF h.el = 1 THEN Leave(Exec(h.b, Enter(S2), Def)) ELSE S2
                  [] h.k = "do" ->
                       IF N(S1) < 2 THEN Fail(S1, "stack_underflow")
                       ELSE LET start == Top(S1, 1)  stop == Top(S1, 2)  S2 == Pop(S1, 2) IN
                            Loop(h, start, stop, [S2 EXCEPT !.doi = @ \o <<start>>], Def)
                  [] h.k = "until" -> Until(h, S1, Def)
                  [] h.k = "while" -> While(h, S1, Def, 0)
                  [] h.k = "get" -> Rewrite(S1, 0, <<S1.x>>)
                  [] h.k = "put" -> IF N(S1) < 1 THEN Fail(S1, "stack_underflow") ELSE [Pop(S1, 1) EXCEPT !.x = Top(S1, 1)]
                  [] h.k = "inc" -> IF N(S1) < 1 THEN Fail(S1, "stack_underflow")
                                    ELSE IF Big(S1.x) THEN Fail(S1, "FUEL") ELSE [Pop(S1, 1) EXCEPT !.x = @ + Top(S1, 1)]
                  [] h.k = "call" -> LET R0 == Leave(Exec(Def, Enter(S1), Def)) IN [R0 EXCEPT !.ret = 0]
                  [] h.k = "read" -> Read(S1, h.ty)
                  [] h.k = "in" -> InWord(S1, h.w)
                  [] h.k = "write" -> IF N(S1) < 1 THEN Fail(S1, "stack_underflow")
                                      ELSE [Pop(S1, 1) EXCEPT !.out = @ \o <<Top(S1, 1)>>]
                  [] h.k = "writeadd" -> IF N(S1) < 1 THEN Fail(S1, "stack_underflow")
                                         ELSE [Pop(S1, 1) EXCEPT !.out = @ \o <<Top(S1, 1) + (IF S1.out = <<>> THEN 0 ELSE S1.out[Len(S1.out)])>>]
                  [] h.k = "outlen" -> Rewrite(S1, 0, <<Len(S1.out)>>)
       IN Exec(Tail(p), R, Def)

\* do-loop: the index lives on S.doi (innermost last); zero iterations when start >= stop
Loop(h, i, stop, S, Def) ==
  IF ~Ok(S) THEN S
  ELSE IF i >= stop THEN [S EXCEPT !.doi = SubSeq(@, 1, Len(@) - 1)]
  ELSE IF S.fuel = 0 THEN Fail(S, "FUEL")
  ELSE LET S1 == Leave(Exec(h.body, Enter([S EXCEPT !.fuel = @ - 1, !.doi[Len(S.doi)] = i]), Def)) IN
       IF ~Ok(S1) THEN S1
       ELSE IF S1.ret = 1 THEN [S1 EXCEPT !.doi = SubSeq(@, 1, Len(@) - 1)]       \* the loop is abandoned
       ELSE IF h.st = 0 THEN Loop(h, i + 1, stop, S1, Def)
       ELSE IF N(S1) < 1 THEN Fail(S1, "stack_underflow")
       ELSE Loop(h, i + Top(S1, 1), stop, Pop(S1, 1), Def)

Until(h, S, Def) ==
  IF ~Ok(S) THEN S
  ELSE IF S.fuel = 0 THEN Fail(S, "FUEL")
  ELSE LET S1 == Leave(Exec(h.body, Enter([S EXCEPT !.fuel = @ - 1]), Def)) IN
       IF ~Ok(S1) \/ S1.ret = 1 THEN S1
       ELSE IF N(S1) < 1 THEN Fail(S1, "stack_underflow")
       ELSE IF Top(S1, 1) # 0 THEN Pop(S1, 1) ELSE Until(h, Pop(S1, 1), Def)

While(h, S, Def, n) ==
  IF ~Ok(S) THEN S
  ELSE IF S.fuel = 0 THEN Fail(S, "FUEL")
  ELSE LET S1 == Leave(Exec(h.c, Enter([S EXCEPT !.fuel = @ - 1]), Def)) IN
       IF ~Ok(S1) \/ S1.ret = 1 THEN S1
       ELSE IF N(S1) < 1 THEN Fail(S1, "stack_underflow")
       ELSE IF Top(S1, 1) = 0 THEN Pop(S1, 1)
       ELSE LET S2 == Leave(Exec(h.body, Enter(Pop(S1, 1)), Def)) IN IF S2.ret = 1 THEN S2 ELSE While(h, S2, Def, n + 1)

Run(main, def) == Exec(main, S0, def)

\* ---------------------------------------------------------------- the program-building machine
VARIABLES main, def, phase, last
fvars == <<main, def, phase, last>>

FInit == main = <<>> /\ def = <<>> /\ phase = "build" /\ last = [act |-> "init"]

AppendPrim == /\ phase = "build" /\ Size(main) + Size(def) < MaxLen
          /\ \E p \in Prims : main' = main \o <<p>>
          /\ UNCHANGED <<def, phase>> /\ last' = [act |-> "build"]

\* wrap the last n instructions of main into a control structure
Wrap == /\ phase = "build" /\ Size(main) + Size(def) < MaxLen /\ main # <<>>
        /\ \E n \in 1..Len(main) : \E c \in Ctrl :
             LET pre == SubSeq(main, 1, Len(main) - n)
                 body == SubSeq(main, Len(main) - n + 1, Len(main)) IN
             \/ /\ c = "if" /\ main' = pre \o <<[k |-> "if", a |-> body, b |-> <<>>, el |-> 0]>> /\ UNCHANGED def
             \/ /\ c = "ifelse" /\ n >= 2
                /\ \E m \in 1..(n - 1) :
                     main' = pre \o <<[k |-> "if", a |-> SubSeq(body, 1, m), b |-> SubSeq(body, m + 1, n), el |-> 1]>>
                /\ UNCHANGED def
             \/ /\ c = "do" /\ main' = pre \o <<[k |-> "do", body |-> body, st |-> 0]>> /\ UNCHANGED def
             \/ /\ c = "+do" /\ main' = pre \o <<[k |-> "do", body |-> body, st |-> 1]>> /\ UNCHANGED def
             \/ /\ c = "until" /\ main' = pre \o <<[k |-> "until", body |-> body]>> /\ UNCHANGED def
             \/ /\ c = "while" /\ n >= 2
                /\ \E m \in 1..(n - 1) :
                     main' = pre \o <<[k |-> "while", c |-> SubSeq(body, 1, m), body |-> SubSeq(body, m + 1, n)]>>
                /\ UNCHANGED def
             \/ /\ c = "def" /\ def = <<>> /\ def' = body /\ main' = pre \o <<[k |-> "call"]>>
        /\ UNCHANGED phase /\ last' = [act |-> "build"]

\* compile-time well-formedness: i needs an enclosing do in the same definition, j two of them
RECURSIVE LoopWordsOk(_, _)
LoopWordsOk(p, nd) ==
  \A q \in 1..Len(p) :
    LET h == p[q] IN
    CASE h.k = "w" -> (h.w = "i" => nd >= 1) /\ (h.w = "j" => nd >= 2)
      [] h.k = "if" -> LoopWordsOk(h.a, nd) /\ LoopWordsOk(h.b, nd)
      [] h.k = "do" -> LoopWordsOk(h.body, nd + 1)
      [] h.k = "until" -> LoopWordsOk(h.body, nd)
      [] h.k = "while" -> LoopWordsOk(h.c, nd) /\ LoopWordsOk(h.body, nd)
      [] OTHER -> TRUE
Compiles == LoopWordsOk(main, 0) /\ LoopWordsOk(def, 0)
RECURSIVE HasExit(_)
HasExit(p) == \E q \in 1..Len(p) :
                LET h == p[q] IN
                CASE h.k = "w" -> h.w = "exit"
                  [] h.k = "if" -> HasExit(h.a) \/ HasExit(h.b)
                  [] h.k \in {"do", "until"} -> HasExit(h.body)
                  [] h.k = "while" -> HasExit(h.c) \/ HasExit(h.body)
                  [] OTHER -> FALSE

Execute == /\ phase = "build"
           /\ LET R == IF Compiles THEN Run(main, def) ELSE Fail(S0, "compile_error") IN
                /\ R.err # "FUEL"
                /\ ~HasExit(main)                 \* `exit` outside a word definition: not specified here
                /\ last' = [act |-> "forth", main |-> main, def |-> def, stackmax |-> StackMax, recmax |-> RecMax,
                            input |-> Input,
                            exp |-> [err |-> R.err, st |-> R.st, x |-> R.x, out |-> R.out, pos |-> R.pos]]
           /\ phase' = "done" /\ main' = <<>> /\ def' = <<>>

FNext == AppendPrim \/ Wrap \/ Execute
FSpec == FInit /\ [][FNext]_fvars

\* ---------------------------------------------------------------- properties of the semantics itself
\* an error-free run leaves the nesting depth where it started and never exceeds the stack bound
RunBalanced == (phase = "build" /\ Compiles) => LET R == Run(main, def) IN
                 (R.err = "none" => (R.depth = 1 /\ R.doi = <<>>)) /\ Len(R.st) <= StackMax
\* the input position never leaves the buffer
PosInRange == (phase = "build" /\ Compiles) => LET R == Run(main, def) IN R.pos >= 0 /\ R.pos <= Len(Input)

FEmit == (EmitOn /\ last'.act = "forth") => PrintT(<<"CASE", ToJson(last')>>)
FView == <<main, def, phase>>
=============================================================================
