--------------------------- MODULE LayoutBuilder ---------------------------
(***************************************************************************)
(* The Form-driven LayoutBuilder as a state machine (C14).                 *)
(*                                                                         *)
(* A LayoutBuilder is created from a Form and then fed a FLAT stream of    *)
(* commands (int64, float64, boolean, null, begin_list, end_list, tag,     *)
(* string); the Form alone decides where each command's datum goes.  The   *)
(* documented meaning (tests/test_0924, the Forms' own grammar):           *)
(*   NumpyForm dt        one command of exactly that primitive type        *)
(*   ListOffsetForm c    begin_list, any number of c-elements, end_list    *)
(*   RegularForm c, n    n consecutive c-elements, no brackets             *)
(*   IndexedOptionForm c null, or one c-element                            *)
(*   Indexed/ByteMasked/BitMasked/UnmaskedForm c   one c-element           *)
(*   RecordForm cs       one element of every field, in field order        *)
(*   UnionForm cs        tag(i), then one element of cs[i]                 *)
(*   string              one string command                                *)
(* The command history is therefore a sentence of the Form's grammar; the  *)
(* VALUE machine below parses it with the Form and yields the completed    *)
(* top-level elements.  A snapshot taken when no element is half-filled    *)
(* must be valid and show exactly those elements (ok = 1); while an        *)
(* element is half-filled the command must still be accepted but the       *)
(* snapshot is not judged (ok = 4: the library may show the filled part);  *)
(* a command of another primitive type where a number is due must raise    *)
(* (ok = 0, tests test_error_in_numpy_form / test_error_in_record_form);   *)
(* any other command that does not fit the grammar has no documented       *)
(* meaning (ok = 3, the behaviour ends: only a clean outcome is required). *)
(* Every maximal behaviour is exported and replayed into the real class.   *)
(***************************************************************************)
EXTENDS AkValue, Json

CONSTANTS Forms,        \* set of form records (see the constructors below)
          Alphabet,     \* set of command records
          MaxCmds,
          EmitOn

VARIABLES form, cmds, obs, phase
lbvars == <<form, cmds, obs, phase>>

\* ---------------------------------------------------------------- forms
FNum(dt) == [f |-> "num", dt |-> dt]
FStr == [f |-> "str"]
FList(c) == [f |-> "list", c |-> c]
FReg(c, n) == [f |-> "reg", c |-> c, n |-> n]
FOpt(c) == [f |-> "opt", c |-> c]
FWrap(k, c) == [f |-> "wrap", k |-> k, c |-> c]        \* k \in {"indexed", "bytemasked", "bitmasked", "unmasked"}
FRec(ks, cs) == [f |-> "rec", ks |-> ks, cs |-> cs]
FUnion(cs) == [f |-> "union", cs |-> cs]

\* ---------------------------------------------------------------- the Form-directed parser
Res(st, v, rest) == [st |-> st, v |-> v, rest |-> rest]
Partial == Res("partial", VNone, <<>>)      \* the commands ran out inside an element
Bad == Res("bad", VNone, <<>>)              \* no documented meaning
LeafBad == Res("leafbad", VNone, <<>>)      \* a datum of another primitive type where a number is due: must raise

IsDatum(c) == c.c \in {"int", "real", "bool"}
DatumType(c) == CASE c.c = "int" -> "int64" [] c.c = "real" -> "float64" [] c.c = "bool" -> "bool"
DatumVal(c) == CASE c.c = "int" -> VInt(c.x) [] c.c = "real" -> VReal(c.n, c.d) [] c.c = "bool" -> VBool(c.x)

RECURSIVE Consume(_, _), ConsumeMany(_, _, _, _), ConsumeFields(_, _, _, _)
\* one complete element of form F from the front of toks
Consume(F, toks) ==
  IF toks = <<>> THEN Partial
  ELSE LET h == Head(toks)
           t == Tail(toks)
       IN CASE F.f = "num" -> IF IsDatum(h) THEN (IF DatumType(h) = F.dt THEN Res("done", DatumVal(h), t) ELSE LeafBad)
                              ELSE IF h.c = "null" THEN LeafBad ELSE Bad
            [] F.f = "str" -> IF h.c = "str" THEN Res("done", VStr(h.b), t) ELSE Bad
            [] F.f = "list" -> IF h.c = "beginlist" THEN ConsumeMany(F.c, t, -1, <<>>) ELSE Bad
            [] F.f = "reg" -> ConsumeMany(F.c, toks, F.n, <<>>)
            [] F.f = "opt" -> IF h.c = "null" THEN Res("done", VNone, t) ELSE Consume(F.c, toks)
            [] F.f = "wrap" -> Consume(F.c, toks)
            [] F.f = "rec" -> ConsumeFields(F, toks, 1, <<>>)
            [] F.f = "union" -> IF h.c = "tag" /\ h.i >= 0 /\ h.i < Len(F.cs) THEN Consume(F.cs[h.i + 1], t) ELSE Bad
\* n elements of form C (n = -1: as many as there are up to the matching end_list), as one list value
ConsumeMany(C, toks, n, acc) ==
  IF n = 0 THEN Res("done", VList(acc), toks)
  ELSE IF toks = <<>> THEN Partial
  ELSE IF n = -1 /\ Head(toks).c = "endlist" THEN Res("done", VList(acc), Tail(toks))
  ELSE LET r == Consume(C, toks)
       IN IF r.st # "done" THEN r ELSE ConsumeMany(C, r.rest, IF n = -1 THEN -1 ELSE n - 1, Append(acc, r.v))
ConsumeFields(F, toks, k, acc) ==
  IF k > Len(F.cs) THEN Res("done", VRec(F.ks, acc), toks)
  ELSE LET r == Consume(F.cs[k], toks)
       IN IF r.st # "done" THEN r ELSE ConsumeFields(F, r.rest, k + 1, Append(acc, r.v))

\* the whole history: completed top-level elements and how it ends
RECURSIVE Parse(_, _, _)
Parse(F, toks, acc) ==
  IF toks = <<>> THEN [st |-> "boundary", vs |-> acc]
  ELSE LET r == Consume(F, toks)
       IN CASE r.st = "done" -> Parse(F, r.rest, Append(acc, r.v))
            [] r.st = "partial" -> [st |-> "mid", vs |-> acc]
            [] OTHER -> [st |-> r.st, vs |-> acc]

Expect(F, h) == LET p == Parse(F, h, <<>>)
                IN CASE p.st = "boundary" -> [ok |-> 1, v |-> VList(p.vs)]
                     [] p.st = "mid" -> [ok |-> 4, v |-> VList(p.vs)]
                     [] p.st = "leafbad" -> [ok |-> 0, v |-> VNone]
                     [] OTHER -> [ok |-> 3, v |-> VNone]

\* ---------------------------------------------------------------- the machine
LBInit == form \in Forms /\ cmds = <<>> /\ obs = <<>> /\ phase = "run"

LBStep(c) ==
  /\ phase = "run" /\ Len(cmds) < MaxCmds
  /\ LET e == Expect(form, cmds \o <<c>>) IN
       /\ cmds' = cmds \o <<c>>
       /\ obs' = obs \o <<e>>
       /\ phase' = IF e.ok \in {0, 3} \/ Len(cmds) + 1 = MaxCmds THEN "end" ELSE "run"
       /\ UNCHANGED form

LBNext == \E c \in Alphabet : LBStep(c)
LBSpec == LBInit /\ [][LBNext]_lbvars

\* ---------------------------------------------------------------- properties of the design
\* completed elements are never taken back: what a later boundary shows extends what an earlier one showed
Monotone == \A i, j \in 1..Len(obs) : (i < j /\ obs[i].ok \in {1, 4} /\ obs[j].ok \in {1, 4}) =>
               /\ Len(obs[i].v.xs) <= Len(obs[j].v.xs)
               /\ SubSeq(obs[j].v.xs, 1, Len(obs[i].v.xs)) = obs[i].v.xs
\* a behaviour goes on exactly while its history is a prefix of a sentence of the Form's grammar
OnlySentences == \A i \in 1..Len(obs) : obs[i].ok \in {0, 3} => i = Len(obs)
\* the parser consumes every command exactly once: at a boundary the number of data commands equals the number of leaves shown
RECURSIVE Leaves(_)
Leaves(v) == CASE v.t = "list" -> IF v.xs = <<>> THEN 0 ELSE Leaves(Head(v.xs)) + Leaves(VList(Tail(v.xs)))
               [] v.t = "rec" -> IF v.vs = <<>> THEN 0 ELSE Leaves(Head(v.vs)) + Leaves(VRec(Tail(v.ks), Tail(v.vs)))
               [] OTHER -> 1
RECURSIVE CountData(_)
CountData(h) == IF h = <<>> THEN 0 ELSE (IF IsDatum(Head(h)) \/ Head(h).c \in {"null", "str"} THEN 1 ELSE 0) + CountData(Tail(h))
NothingLost == (obs # <<>> /\ obs[Len(obs)].ok = 1) => Leaves(obs[Len(obs)].v) = CountData(cmds)

LBEmit == (EmitOn /\ phase' = "end") =>
            PrintT(<<"CASE", ToJson([act |-> "layoutbuilder", form |-> form', cmds |-> cmds', obs |-> obs'])>>)
LBView == <<form, cmds, phase>>
=============================================================================
